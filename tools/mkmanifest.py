#!/usr/bin/env python3
"""Regenerates MANIFEST.json from the table below (run after adding a check)."""
import json
from pathlib import Path

VERIF = Path(__file__).resolve().parents[1]
TB = ("Trusted: CPython semantics of the inherited builtins, typeshed signatures, lark's grammar loader/LALR construction, "
      "the library effect table (sa/core/effects.py) and the reference tables transcribed from the property statement. "
      "Value-level clauses (marked V in DESIGN.md section 4) are not decided.")

CHECKS = {
    "C06": dict(
        category="other",
        technique="grammar stratification check + LALR(1) conflict-freeness + terminal priority rule for keywords inside L(IDENT) + stack-effect abstract interpretation of DumpAST per production + memo-key completeness of process-wide tables on the parse path",
        text="Decides precedence/associativity as a property of cel.lark (stratification against CEL's level table, LALR(1) table "
             "built without conflicts with the options read from CELParser.__init__), the keyword-literal retyping table, the ignored "
             "terminals, and for every production and child shape the stack effect and rendering of DumpAST. Holds for all expressions "
             "by induction over the grammar; no expression is parsed or evaluated.",
        design_ref="DESIGN.md section 4 C06",
        note=TB + " Lexer tie-breaks inside lark are assumed."),
}

CHECKS["C01"] = dict(
    category="other",
    technique="operator dispatch matrix + path-based interval extraction of the range decorators/checkers + sign/magnitude abstract evaluation + IEEE class x sign evaluation of the zero-divisor branch and of unary minus + checked-intermediate rule (operators and builtins dispatching to range-checked dunders) + exception-effect analysis + def-use dependence",
    text="Decides the structural clauses: every int/uint arithmetic cell (direct and reflected) is under the class's range check whose accepted "
         "interval is exactly int64/uint64; division/remainder bodies truncate toward zero / take the dividend's sign for all sign combinations; "
         "every exception class those cells raise is converted by the interpreter's rule method and by result(); each numeric result depends on both operands. "
         "These hold for all operand pairs because they constrain every path of every operator body; magnitudes and IEEE results are CPython's.",
    design_ref="DESIGN.md section 4 C01",
    note=TB)
CHECKS["C04"] = dict(
    category="other",
    technique="interprocedural exception-effect (may-raise) analysis over grammar-typed visitor dispatch and the operator dispatch matrix; stack-effect analysis of DumpAST",
    text="Computes, by fixpoint over the call graph, every exception class that can leave Evaluator.evaluate, Transpiler.transpile/evaluate and "
         "CELParser.parse, with parse-tree variables typed by the grammar (child counts, symbols, token types) so that shape assertions are proven dead. "
         "One obligation per (boundary, exception class); open ones are listed in known_findings.json with a witness expression. Sound modulo the library "
         "effect table; RecursionError and lark's positions are not decided.",
    design_ref="DESIGN.md section 4 C04",
    note=TB + " Host functions are assumed to raise only ValueError/TypeError.")

CHECKS["C02"] = dict(
    category="other",
    technique="finite-domain decision tables by kind-level abstract interpretation + path rule + exception-effect analysis of reducers and rule methods + exception arrivals vs the conversion boundary of compiled operands + early-exit rule for fold loops + path rule on the generic arm of BoolType.__new__",
    text="Extracts the complete decision tables of logical_and/or/not/condition over {true,false,error,non-bool} from their bodies and compares every cell "
         "(and commutativity) with the table in the statement; proves by a path rule that ?: visits exactly the selected branch; proves with the effect "
         "engine that every all/exists fold uses a reducer that cannot raise, that the interpreter converts the logical functions' TypeError, and that no "
         "rule method lets CELEvalError propagate as an exception. Complete for the logical functions (finite domain); plumbing by rules. The conversion boundary of compiled operands "
         "(result(), instances shared with C03.X2) has three open instances recorded as known findings with witness expressions.",
    design_ref="DESIGN.md section 4 C02",
    note=TB)

CHECKS["C13"] = dict(
    category="other",
    technique="operator dispatch matrix resolved through the MRO against CEL's operator typing table; return-expression analysis; path rule on the interpreter's macro arms (every path selected for a macro returns its class or an error)",
    text="For every row of CEL's operator typing table restricted to celpy's types the resolved cell (direct, and reflected where reachable) must be a "
         "repository method whose every return builds the result class; function_*, macro_*, boolean(), operator_in, has() must return CEL classes; the "
         "type-name table must denote those classes. Complete over the operator x type matrix; holds for all operand values because it constrains every return.",
    design_ref="DESIGN.md section 4 C13",
    note=TB + " Inherited builtin arithmetic slots return the builtin base type (CPython fact).")

CHECKS["C05"] = dict(
    category="other",
    technique="shared-state channel analysis: inventory of persistent cells on the API call graph; cache-key completeness (guards and process-wide memo tables), ChainMap first-layer writes, clone-depth, reaching-value freshness and read-only-parameter rules",
    text="Sufficient condition: enumerates every storage cell that outlives an API call and is written on the call graph of Environment()/compile/program/evaluate, "
         "and shows for each that it cannot carry information from one operation to a later one (complete cache key, per-call namespace, deep clone of the "
         "runner's activation, bindings loaded only into objects created by the same call, caller's bindings never stored into). No channel implies no history dependence "
         "for every sequence of operations.",
    design_ref="DESIGN.md section 4 C05",
    note=TB + " The call graph is name-resolved and over-approximate.")
CHECKS["C16"] = dict(
    category="other",
    technique="shared-state channel analysis (same inventory as C05) under the stricter rule for concurrently running environments",
    text="Sufficient condition for every interleaving: no cell reachable from two environments is written while compiling, building or evaluating unless it is a "
         "per-call object; exec() namespaces must be created by the call; the process-wide parser cache must be keyed completely and not re-read during parse(). "
         "Idempotent constant process settings are listed.",
    design_ref="DESIGN.md section 4 C16",
    note=TB + " Third-party objects shared between threads (the lark parser) are assumed thread-safe for parse().")
CHECKS["C08"] = dict(
    category="other",
    technique="operator chain agreement through grammar/dispatch tables; decorator and delegation checks on the comparison cells; De Morgan duality of the container folds; size rule for shortcut return paths (path enumeration)",
    text="Decides the plumbing of equality and ordering: every relation token reaches the Python comparison of the same name with operands in order in both engines; "
         "numeric comparison overrides are type-matched and delegate to the builtin of the same name; every ordered class resolves each comparison to a builtin slot or "
         "such a delegate; List/Map != is the exact dual of == over the same element pairing. The order laws themselves are CPython's.",
    design_ref="DESIGN.md section 4 C08",
    note=TB)

CHECKS["C09"] = dict(
    category="other",
    technique="dispatch matrix + exception-effect analysis + guard/idiom rules on the index, lookup, duplicate-key and macro implementations; loop-exit rule for macros without an absorbing element",
    text="Decides the 'errors, never values' clause: the list index cell rejects negative indexes; indexing errors are converted by both runners; both map "
         "constructors test duplicates before inserting; invalid regular expressions become error values; map lookups decide presence by membership. Adds shape "
         "checks tying size/startsWith/endsWith/contains and each macro implementation to the primitive their definition needs. The laws relating several "
         "evaluations (map/filter/exists_one/in) are value-level and not decided.",
    design_ref="DESIGN.md section 4 C09",
    note=TB)
CHECKS["C10"] = dict(
    category="other",
    technique="must-pass-through analysis of the constructor ladders against the range decorators (interval extraction), path enumeration with symbolic environment: every constructing path passes a range test inside the target interval; absent-vs-falsy rule on scalar constructors; signed floor-division rule on the offset rendering",
    text="Every arm of IntType/UintType.__new__ that builds from a foreign kind selects a converter wrapped by the class's range decorator (or is a recorded "
         "exemption); manual guards are accepted only if the interval they accept lies inside the target range; doubles truncate toward zero; hex arms use radix 16 "
         "with the right prefix length; DurationType construction is dominated by the +-315,576,000,000 s test; text conversions use UTF-8. Round-trip identities are not decided.",
    design_ref="DESIGN.md section 4 C10",
    note=TB)

CHECKS["C07"] = dict(
    category="other",
    technique="regex-AST analysis of the escape tokenizer and literal terminals, table comparison against CEL's escape table, radix/offset and delimiter-slice extraction, literal-language probe of generated code; absent-vs-falsy and text-arm range rules on the literal constructors",
    text="Decides necessary conditions of literal decoding: the escape tokenizer matches every character; the escape table and the numeric escape forms are CEL's and "
         "are decoded with the matching offset and radix; delimiters are removed by prefix-consistent fixed slices only; both engines map each literal terminal to the "
         "same constructor; characters of bytes literals are UTF-8 encoded; numeric spellings admitted by the lexer are not re-lexed by Python in generated code. "
         "That decoding composes to the identity on all strings is not decided.",
    design_ref="DESIGN.md section 4 C07",
    note=TB)

CHECKS["C12"] = dict(
    category="other",
    technique="finite decision table of Referent.value by abstract interpretation; pool/selection analysis of the tie-break; who-may-read rule on the raw value field; path rule with attribute-store tracking on Referent.clone (every field the getter reads is carried); dataflow/shape rules for macro activations; fresh-sub-evaluator path rule; no-replacement rule on load_values",
    text="Narrow claim: decides the preference container > value > annotation inside a Referent (complete table), that among equally long matches the innermost scope wins, "
         "that bindings are loaded in front of declarations, and that both engines evaluate a macro body under the current activation plus exactly the iteration variable(s). "
         "The search over package prefixes and competing dotted names is a loop over run-time name sets and is NOT decided.",
    design_ref="DESIGN.md section 4 C12",
    note=TB + " Only the listed clauses are claimed.")

CHECKS["C14"] = dict(
    category="other",
    technique="sibling cross-check of function_eval/method_eval; classification of every construction of the function lookup chain; provenance rule on generated callee text; who-may-write rule on base_functions (also through ChainMap first layers); exception-effect analysis with a host-function model (subclasses included) and origin sites",
    text="Decides necessary conditions: the two call forms are handled identically (handlers, messages, lookup, error-argument checks, receiver as first argument); every "
         "construction of an activation's function chain looks supplied functions up before base_functions, which is never written; unbound names become error values; "
         "ValueError/TypeError of host functions are converted; the transpiler must not re-spell the callable. 'Once per call site' and argument values are not decided.",
    design_ref="DESIGN.md section 4 C14",
    note=TB)

CHECKS["C15"] = dict(
    category="other",
    technique="subclass-aware isinstance-ladder ordering; finite decision table of json_to_cel over the JSON kinds by abstract interpretation; per-class path rule on the encoder (which returning path a value of each class takes, and what it returns)",
    text="Decides the shape clauses: no isinstance arm is shadowed by an earlier superclass arm (booleans never become integers); the kind table of json_to_cel equals the "
         "reference for all seven JSON kinds, with recursive conversion of elements, keys and values; the encoder maps BoolType to bool, recurses, and covers timestamp, "
         "duration and bytes; no type-dispatching conversion is memoized by equality. Round-trip document equality and navigation are not decided.",
    design_ref="DESIGN.md section 4 C15",
    note=TB)

CHECKS["C17"] = dict(
    category="other",
    technique="typestate rule on the module global C7N (writers, all-paths reset, lexical scoping of evaluate), registry agreement, interprocedural typestate summary; path rule for the set helpers; idiom classification of the other small helpers",
    text="Decides the context clause completely (the filter context is installed only by the context manager, cleared on every path of __exit__, exceptions propagate, "
         "and every evaluation of the C7N runner happens inside the with-block) and table/registry agreement; for the set/CIDR/tag/ARN helpers it classifies each body "
         "against the recognised idioms of its definition (a different set operator, swapped arguments, truthiness used as presence are reported). The library maths "
         "behind the idioms is not decided.",
    design_ref="DESIGN.md section 4 C17",
    note=TB + " ipaddress, fnmatch and packaging.Version behave as documented.")

CHECKS["C20"] = dict(
    category="other",
    technique="finite exit-status decision tables by kind-level abstract interpretation of main()'s null-input arm and process_json_doc(); fold, dominance and framing rules on the NDJSON loop; absence-vs-emptiness rule for --arg values; path rule on the default package (stored only where --json-document is absent); whole-document decoder rule; --arg type table agreement",
    text="Extracts the complete exit-status tables over {true,false,other value,evaluation error} x {-b, no -b} plus malformed JSON and a syntax error and compares them with the "
         "reference; checks that the NDJSON status is a max-fold from 0, that each document alone is bound before evaluate(), that documents are framed by line feeds only, "
         "and that output goes through CELJSONEncoder unless --format. The printed text for arbitrary values is not decided.",
    design_ref="DESIGN.md section 4 C20",
    note=TB + " The per-document table follows the property's mechanism list (0/1/3), which the code's docstring shares.")

CHECKS["C11"] = dict(
    category="other",
    technique="must-pass-through rule for the zoned instant and no-unzoned-field rule; finite-range evaluation of accessor expressions against CEL's conventions; symbolic linear-form evaluation of the fixed-offset parser; table agreement for duration units",
    text="Decides the accessor conventions and wiring: every timestamp accessor reads its field from self.astimezone(tz_parse(tz_name)) and the integer expression it returns "
         "agrees with CEL's convention over the whole range of that field; tz_offset_parse builds +-(hh*3600+mm*60) s in all 12 cases of sign x {hh=0,>0} x {mm=0,>0}; the "
         "duration unit table is CEL's and the parser multiplies the number group by the scale of the unit group; duration getters use the right factor. Arithmetic "
         "identities, IANA zone data and datetime range errors are not decided.",
    design_ref="DESIGN.md section 4 C11",
    note=TB + " datetime/pendulum behave as documented.")

CHECKS["C18"] = dict(
    category="other",
    technique="abstract interpretation of the emitted text over CEL precedence classes (least fixpoint over abstract nesting levels), with primitive classes obtained by parsing every emitted template with cel.lark; argument-write effect analysis (no translator function writes into the filter it is given); entry-point path rule; precedence class of every operator template",
    text="Decides composition safety for all filter trees by induction: the connective table, monotone nesting level of every recursive call, and - for every join at every abstract "
         "level {0,1,>=2} and every class of child text (nested connectives by fixpoint, primitive clauses by parsing each rewriter's templates with holes replaced by atoms) - "
         "whether the child keeps its grouping inside the joined text; plus negation scope of prefixed clauses and that every clause/return template is CEL. "
         "Open instances are listed in known_findings.json with witness filters.",
    design_ref="DESIGN.md section 4 C18",
    note=TB + " String-building code outside the interpreted subset is reported INCONCLUSIVE.")

CHECKS["C19"] = dict(
    category="other",
    technique="table comparison against the reference operator table; parsing of every table entry and template with cel.lark; writer/reader unit and name agreement; quote-taint, serialiser, escape-pair (constant evaluation) and split-limit rules",
    text="Decides the table and quoting clauses: the op table equals the reference (relation tokens, alias groups, call shapes); every per-resource table entry is syntactically valid CEL; "
         "the duration units written are the reader's units and the zero path is non-empty; policy-derived values between quotes come from q(), which escapes backslash, delimiter and "
         "line feed; every function name in emitted text is bound in c7nlib.FUNCTIONS/base_functions; no foreign serialiser is applied to policy values. "
         "The match decision on resources is not decided.",
    design_ref="DESIGN.md section 4 C19",
    note=TB)

CHECKS["C03"] = dict(
    category="other",
    technique="sibling cross-check of the two visitor classes against the grammar; operator chain agreement; template placeholder/binding and child-path wiring analysis; exception-effect arrivals vs the conversion boundary of result(); regex-AST anchoring rule for text recognition in Phase 2; per-call-state rules of the compiled runner; construction-time escapes (may-raise origins the interpreter does not share); lookup-error rule on the containers compiled member selection calls",
    text="Decides necessary conditions of runner agreement: both engines cover every grammar rule and the same macros (each with its runtime helper); every operator token reaches the same "
         "Python operator in both; every template placeholder is bound, each operand placeholder to the child in that operand position, operands passed in order; every exception class "
         "that can arrive in result() is caught there and has an exact-class message entry; raw token text never lands in code position. Equality of computed values for all "
         "programs is NOT decided (it needs execution).",
    design_ref="DESIGN.md section 4 C03",
    note=TB)

PENDING = {}  # property id -> reason, for properties not claimed

# rules of seed round 8 (technique fragments appended to the entries above)
ROUND8 = {
    "C01": "shared instances of C03.T4 (compiled operators are applied on every operator path)",
    "C02": "def-use rule: every visited condition value reaches the `_?_:_` function (no truthiness-driven loop over else-if links)",
    "C03": "path rule T4: on a path with an operator child the generated text is built, never taken over from a (grand)child; shared instances of C12.N3",
    "C04": "clone chain Activation/NameContainer/Referent followed by name; copy.deepcopy in the library effect table; set-up exclusion limited to explicit rejections",
    "C05": "memo-key completeness counts an object handed on as a whole as a dependency on all of its state",
    "C06": "the dump machine forks on predicates over child text and judges both outcomes",
    "C07": "taint rule: cooked bytes are not the encoding of the string decoder's result",
    "C10": "shared instances of C14.F8 (error arguments never reach a conversion function)",
    "C11": "override rule: astimezone/utcoffset inherited or returned from the inherited conversion on every path",
    "C12": "shared instances of C05.H3 (clone shares no Referent)",
    "C14": "call-site classification of the argument list (exprlist rule vs raw children) against element scans; closure-captured result containers in the macro builders",
    "C15": "path rule: no non-empty container returned unconverted under a members-only test; shared instance of C08.P4",
    "C17": "path rule: network operand decided through supernet_of/subnet_of, not from one end",
    "C18": "operands built as text at value_to_cel call sites parsed (holes as atoms) with cel.lark and ranked",
    "C19": "shared instances of C10.R1/R3 (text arms of int())",
    "C20": "shared instances of C15.J3 (encoder recursion)",
}
for _k, _v in ROUND8.items():
    if _k in CHECKS and _v not in CHECKS[_k]["technique"]:
        CHECKS[_k]["technique"] += "; " + _v


def main():
    props = [json.loads(l)["id"] for l in (VERIF / "properties.jsonl").read_text().splitlines() if l.strip()]
    checks = []
    for pid in props:
        if pid not in CHECKS:
            continue
        c = CHECKS[pid]
        checks.append({
            "property_id": pid,
            "quick_cmd": f"./check {pid} --tier quick",
            "thorough_cmd": f"./check {pid} --tier thorough",
            "evidence_file": f"/verif/evidence/{pid}.json",
            "replay_cmd_template": f"./check {pid} --replay {{path}}",
            "engine": "sa",
            "level_claimed": {"category": c["category"], "text": c["text"], "design_ref": c["design_ref"]},
            "level_note": c["note"],
            "technique": c["technique"],
        })
    na = [{"property_id": p, "reason": PENDING.get(p, "no static check is registered for this property in this revision of /verif (see DESIGN.md section 4 for the planned rules)")}
          for p in props if p not in CHECKS]
    manifest = {
        "version": 1,
        "setup_cmd": "./tools/setup.sh",
        "hooks": {
            "guard": "CLOUD_CUSTODIAN_CEL_PYTHON_VERIF",
            "enable": "none needed: the checks are static and read /repo's sources; no hook or instrumentation exists in /repo",
            "baseline_off_cmd": "cd /repo && /venv/bin/python -m pytest -ra -q -p no:cacheprovider --timeout=900 --continue-on-collection-errors",
            "source_commits": [],
            "add_only": True,
        },
        "engines": [{
            "name": "sa",
            "path": "sa/",
            "serves_properties": [c["property_id"] for c in checks],
            "kind_free_text": "repository-specific static analysis over Python ASTs and the Lark grammar (ast + lark as a library); never imports or runs celpy",
        }],
        "checks": checks,
        "not_applicable": na,
        "notes": "Static analysis only. Every check reads /repo's current sources on every run. Genuine defects are listed in known_findings.json (known) or repaired by fix: commits in /repo (fixed).",
    }
    (VERIF / "MANIFEST.json").write_text(json.dumps(manifest, indent=1) + "\n")
    print(f"{len(checks)} checks, {len(na)} not_applicable")

if __name__ == "__main__":
    main()
