#!/usr/bin/env python3
"""For every seeded change: is it reported by the check of the property it was written against (meta.property),
not only by a neighbour?  Applies each patch to /repo and undoes it straight afterwards."""
import json, subprocess, sys
from pathlib import Path
VERIF = Path(__file__).resolve().parents[1]
def sh(cmd): return subprocess.run(cmd, shell=True, capture_output=True, text=True)
if sh("git -C /repo status --porcelain -- src").stdout.strip():
    print("repo/src not clean"); sys.exit(2)
miss = 0
for d in sorted((VERIF / "seeded").iterdir()):
    meta = json.load(open(d / "meta.json"))
    pid = meta["property"]
    if sh(f"git -C /repo apply --check {d}/patch.diff").returncode:
        print(f"SKIP {d.name}"); continue
    sh(f"git -C /repo apply {d}/patch.diff")
    try:
        r = sh(f"cd {VERIF} && ./check {pid} --no-evidence --no-selftest")
    finally:
        sh("git -C /repo checkout -- src")
    own = r.returncode == 1 and "VIOLATION" in r.stdout
    if not own:
        miss += 1
        print(f"NOT-OWN {d.name}: {pid} rc={r.returncode}; caught_by={meta['caught_by']}")
    elif "--update" in sys.argv and pid not in meta["caught_by"]:
        meta["caught_by"] = sorted(set(meta["caught_by"]) | {pid})
        (d / "meta.json").write_text(json.dumps(meta, indent=1) + "\n")
        print(f"updated {d.name}: {meta['caught_by']}")
print(f"{miss} seeds not reported by their own property's check")
