#!/usr/bin/env python3
"""Parallel false-alarm / seed regression on scratch copies (never touches /repo).
usage: tools/prefactest.py refactors   -> every refactors/*/r*.diff must leave all 20 quick checks silent
       tools/prefactest.py seeds       -> every seeded/*/patch.diff must be reported by the checks in its meta.json
       tools/prefactest.py combos      -> every combos/*.diff must be reported by the check of the property in its name
Scratch copies live under a fresh mkdtemp and are removed as soon as their patch has been judged."""
import json, shutil, subprocess, sys, tempfile
from concurrent.futures import ThreadPoolExecutor
from pathlib import Path
VERIF = Path(__file__).resolve().parents[1]
mode = sys.argv[1]
only = sys.argv[2:]
man = json.load(open(VERIF / "MANIFEST.json"))
ALL = [c["property_id"] for c in man["checks"]]
def sh(cmd, cwd=None):
    return subprocess.run(cmd, shell=True, capture_output=True, text=True, cwd=cwd)
def check(pid, root):
    r = sh(f"./check {pid} --root {root} --no-evidence --no-selftest", cwd=VERIF)
    bad = [l.strip()[:260] for l in r.stdout.splitlines() if l.startswith("  ") or l.startswith("ANALYSIS")]
    return r.returncode, bad
def job(item):
    name, patch, pids, expect_alarm = item
    tmp = Path(tempfile.mkdtemp(prefix="pref_"))
    try:
        shutil.copytree("/repo/src", tmp / "src")
        a = sh(f"git apply {patch}", cwd=tmp)
        if a.returncode:
            return name, "SKIP", [a.stderr.strip()[:120]]
        res = {pid: check(pid, tmp) for pid in pids}
        if expect_alarm:
            missed = [pid for pid, (rc, _) in res.items() if rc != 1]
            return name, ("ok" if not missed else "MISS"), [f"{pid} rc={res[pid][0]}" for pid in missed]
        alarms = [(pid, rc, bad) for pid, (rc, bad) in res.items() if rc != 0]
        return name, ("ok" if not alarms else "ALARM"), [f"{pid} rc={rc} {bad[:2]}" for pid, rc, bad in alarms]
    finally:
        shutil.rmtree(tmp, ignore_errors=True)
items = []
if mode == "refactors":
    for p in sorted((VERIF / "refactors").glob("*/r*.diff")):
        items.append((f"{p.parent.name}/{p.stem}", p, ALL, False))
elif mode == "seeds":
    for d in sorted((VERIF / "seeded").iterdir()):
        meta = json.load(open(d / "meta.json"))
        items.append((d.name, d / "patch.diff", meta["caught_by"] or [meta["property"]], True))
elif mode == "combos":
    for p in sorted((VERIF / "combos").glob("*.diff")):
        items.append((p.stem, p, [p.stem.split("_")[0]], True))
if only:
    items = [i for i in items if any(o in i[0] for o in only)]
workers = 14
bad = 0
with ThreadPoolExecutor(workers) as ex:
    for name, status, detail in ex.map(job, items):
        if status != "ok":
            bad += status != "SKIP"
            print(status, name, *detail, flush=True)
print(f"{mode}: {len(items)} patches, {bad} problems")
sys.exit(1 if bad else 0)
