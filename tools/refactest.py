#!/usr/bin/env python3
"""Apply each behaviour-preserving refactoring rN.diff of a directory to /repo, run every registered
quick check, undo it.  Any VIOLATION / ANALYSIS-ERROR / non-zero exit is a false alarm of the machinery.
usage: tools/refactest.py <dir with r*.diff> [--suite]"""
import json, subprocess, sys
from concurrent.futures import ThreadPoolExecutor
from pathlib import Path
d = Path(sys.argv[1]).resolve()
VERIF = Path(__file__).resolve().parents[1]
def sh(cmd, **kw):
    return subprocess.run(cmd, shell=True, capture_output=True, text=True, **kw)
if sh("git -C /repo status --porcelain -- src").stdout.strip():
    print("repo/src not clean"); sys.exit(2)
man = json.load(open(VERIF / "MANIFEST.json"))
pids = [c["property_id"] for c in man["checks"]]
base = {}
def run(pid):
    r = sh(f"cd {VERIF} && ./check {pid} --no-evidence --no-selftest")
    inc = [l for l in r.stdout.splitlines() if l.startswith("INCONCLUSIVE")]
    bad = [l for l in r.stdout.splitlines() if l.startswith("  ") or l.startswith("ANALYSIS") or l.startswith("VIOLATION")]
    return pid, r.returncode, bad, inc
with ThreadPoolExecutor(8) as ex:
    for pid, rc, bad, inc in ex.map(run, pids):
        base[pid] = len(inc)
total_bad = 0
only = [a for a in sys.argv[2:] if not a.startswith("--")]
for patch in sorted(d.glob("r*.diff")):
    if only and patch.stem not in only:
        continue
    chk = sh(f"git -C /repo apply --check {patch}")
    if chk.returncode:
        print(f"{patch.name}: does not apply: {chk.stderr[:200]}"); continue
    sh(f"git -C /repo apply {patch}")
    try:
        if "--suite" in sys.argv:
            r = sh("cd /repo && /venv/bin/python -m pytest -q -p no:cacheprovider --timeout=900 --continue-on-collection-errors 2>&1 | tail -1")
            print(f"{patch.name}: suite: {r.stdout.strip()}")
        alarms = []
        with ThreadPoolExecutor(8) as ex:
            for pid, rc, bad, inc in ex.map(run, pids):
                if rc != 0:
                    alarms.append((pid, rc, bad))
                elif len(inc) > base[pid]:
                    print(f"{patch.name}: [{pid}] newly INCONCLUSIVE: {inc[-1][:200]}")
        if alarms:
            total_bad += 1
            for pid, rc, bad in alarms:
                print(f"{patch.name}: [{pid}] rc={rc}")
                for l in bad[:4]:
                    print("      ", l.strip()[:300])
        else:
            print(f"{patch.name}: quiet")
    finally:
        sh("git -C /repo checkout -- src")
print("FALSE ALARMS:", total_bad)
