#!/usr/bin/env python3
"""Regression of the checks: (1) every registered quick check exits 0 on the unchanged tree;
(2) every seeded change under seeded/ is reported by the checks named in its meta.json.
The seeded change is applied to /repo with git apply and undone straight afterwards."""
import json, subprocess, sys, time
from pathlib import Path
VERIF = Path(__file__).resolve().parents[1]
def sh(cmd): return subprocess.run(cmd, shell=True, capture_output=True, text=True)
if sh("git -C /repo status --porcelain -- src").stdout.strip():
    print("repo/src not clean"); sys.exit(2)
man = json.load(open(VERIF / "MANIFEST.json"))
bad = 0
t0 = time.time()
if "--seeds-only" not in sys.argv:
    for c in man["checks"]:
        r = sh(f"cd {VERIF} && ./check {c['property_id']} --no-evidence")
        last = r.stdout.strip().splitlines()[-1] if r.stdout.strip() else ""
        ok = r.returncode == 0
        print(("ok   " if ok else "FAIL ") + last)
        bad += not ok
for d in sorted((VERIF / "seeded").iterdir()):
    meta = json.load(open(d / "meta.json"))
    if sh(f"git -C /repo apply --check {d}/patch.diff").returncode:
        print(f"SKIP {d.name}: patch no longer applies"); continue
    sh(f"git -C /repo apply {d}/patch.diff")
    try:
        res = {}
        for pid in meta["caught_by"]:
            r = sh(f"cd {VERIF} && ./check {pid} --no-evidence")
            res[pid] = r.returncode
        ok = bool(res) and all(v == 1 for v in res.values())
        print(("ok   " if ok else "MISS ") + f"seed {d.name}: {res}")
        bad += not ok
    finally:
        sh("git -C /repo checkout -- src")
print(f"{'ALL GOOD' if not bad else str(bad) + ' PROBLEMS'} in {time.time()-t0:.0f}s")
sys.exit(1 if bad else 0)
