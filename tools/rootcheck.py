#!/usr/bin/env python3
"""Run every registered quick check against another checkout (a scratch worktree with a change
applied) without touching /repo.   usage: tools/rootcheck.py <root> [Cnn ...]"""
import json, subprocess, sys
from concurrent.futures import ThreadPoolExecutor
from pathlib import Path
VERIF = Path(__file__).resolve().parents[1]
root = sys.argv[1]
man = json.load(open(VERIF / "MANIFEST.json"))
pids = sys.argv[2:] or [c["property_id"] for c in man["checks"]]
def run(pid):
    r = subprocess.run(f"cd {VERIF} && ./check {pid} --root {root} --no-evidence --no-selftest",
                       shell=True, capture_output=True, text=True)
    return pid, r.returncode, r.stdout
caught = []
with ThreadPoolExecutor(10) as ex:
    for pid, rc, out in ex.map(run, pids):
        if rc != 0:
            caught.append(pid)
            print(f"[{pid}] rc={rc}")
            for l in [l for l in out.splitlines() if l.startswith("  ") or l.startswith("ANALYSIS")][:5]:
                print("    ", l.strip()[:300])
print("CAUGHT BY:", caught or "nothing")
