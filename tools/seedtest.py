#!/usr/bin/env python3
"""Apply a seeded change to /repo, run the registered quick checks, undo it.
usage: tools/seedtest.py <seed dir> [--demo] [--suite]"""
import json, subprocess, sys
from pathlib import Path
seed = Path(sys.argv[1]).resolve()
patch = seed / "patch.diff"
VERIF = Path(__file__).resolve().parents[1]
def sh(cmd, **kw):
    return subprocess.run(cmd, shell=True, capture_output=True, text=True, **kw)
st = sh("git -C /repo status --porcelain -- src")
if st.stdout.strip():
    print("repo/src not clean:", st.stdout); sys.exit(2)
if "--demo" in sys.argv:
    r = sh(f"PYTHONPATH=/repo/src /venv/bin/python {seed}/demo.py")
    print("demo on unchanged tree: rc", r.returncode, r.stdout.strip().splitlines()[-1:] )
chk = sh(f"git -C /repo apply --check {patch}")
if chk.returncode:
    print("patch does not apply:", chk.stderr[:300]); sys.exit(2)
sh(f"git -C /repo apply {patch}")
try:
    if "--demo" in sys.argv:
        r = sh(f"PYTHONPATH=/repo/src /venv/bin/python {seed}/demo.py")
        print("demo on changed tree: rc", r.returncode, r.stdout.strip().splitlines()[-1:])
    if "--suite" in sys.argv:
        r = sh("cd /repo && /venv/bin/python -m pytest -q -p no:cacheprovider --timeout=900 --continue-on-collection-errors 2>&1 | tail -1")
        print("suite:", r.stdout.strip())
    man = json.load(open(VERIF / "MANIFEST.json"))
    caught = []
    for c in man["checks"]:
        pid = c["property_id"]
        r = sh(f"cd {VERIF} && ./check {pid} --no-evidence")
        v = [l for l in r.stdout.splitlines() if l.startswith("  ") or l.startswith("ANALYSIS")]
        if r.returncode != 0:
            caught.append(pid)
            print(f"[{pid}] rc={r.returncode}")
            for l in v[:4]:
                print("    ", l.strip()[:260])
    print("CAUGHT BY:", caught or "nothing")
finally:
    sh("git -C /repo checkout -- src")
