#!/bin/sh
# Offline setup: nothing to build. Verifies the interpreter and the one library the checks load (lark).
cd "$(dirname "$0")/.." || exit 1
if [ -x /venv/bin/python ]; then PY=/venv/bin/python; else PY=python3-vt; fi
"$PY" -c "import lark, ast, sys; print('python', sys.version.split()[0], 'lark', lark.__version__)" || exit 1
"$PY" -m compileall -q sa >/dev/null 2>&1
find sa -name __pycache__ -type d -exec rm -rf {} + 2>/dev/null
exit 0
